"""Normal form of a function body, so that rules see behaviour and not style.

A maintainer's cleanup (invert a condition and swap the branches, turn ``if c: return a`` +
``return b`` into a conditional expression, add an ``else`` after a ``return``, merge two
nested ``if``s, name a sub-expression, inline a single-use local) must not change any verdict.
Rules that match shapes therefore look at ``norm(fn)`` - a copy of the function (original line
numbers kept, parent links set) on which these rewrites were applied until nothing changes:

  N1  ``return A if C else B`` / ``x = A if C else B``  ->  if C: ... else: ...
  N2  ``if C: <always leaves>`` followed by R          ->  if C: ... else: R
  N3  negated tests are made positive by swapping the branches (``not C``, ``is not``,
      ``!=``, ``not in``) - for ``if`` statements with an ``else`` and for conditional
      expressions
  N4  ``if A:`` containing only ``if B: S`` (no else on either) ->  ``if A and B: S``
  N5  a local that is assigned exactly once (plain ``name = expr``) and read exactly once,
      later, outside any loop the assignment is not part of, is replaced by its value

``atoms(test)`` splits a test into signed atoms (``A and not B`` -> [(A, True), (B, False)];
``not (A or B)`` -> [(A, False), (B, False)]; comparison operators made positive), which is
what guard comparisons use.
"""

from __future__ import annotations

import ast
import typing as t

_CACHE: dict[int, ast.AST] = {}


def clone(n: t.Any) -> t.Any:
    if isinstance(n, ast.AST):
        new = type(n)()
        for f in n._fields:
            if hasattr(n, f):
                setattr(new, f, clone(getattr(n, f)))
        for a in n._attributes:
            if hasattr(n, a):
                setattr(new, a, getattr(n, a))
        return new
    if isinstance(n, list):
        return [clone(x) for x in n]
    return n


def set_parents(root: ast.AST) -> None:
    root._parent = getattr(root, "_parent", None)  # type: ignore[attr-defined]
    for parent in ast.walk(root):
        for child in ast.iter_child_nodes(parent):
            child._parent = parent  # type: ignore[attr-defined]


def _leaves(body: list[ast.stmt]) -> bool:
    from .cfg import _always_leaves

    return _always_leaves(body)


_POS = {ast.IsNot: ast.Is, ast.NotEq: ast.Eq, ast.NotIn: ast.In}


def positive(test: ast.expr) -> tuple[ast.expr, bool]:
    """(test', flipped): test' is test with one outer negation removed when there is one."""
    if isinstance(test, ast.UnaryOp) and isinstance(test.op, ast.Not):
        return test.operand, True
    if isinstance(test, ast.Compare) and len(test.ops) == 1 and type(test.ops[0]) in _POS:
        new = ast.Compare(left=test.left, ops=[_POS[type(test.ops[0])]()], comparators=test.comparators)
        ast.copy_location(new, test)
        return new, True
    return test, False


def atoms(test: ast.expr, pol: bool = True) -> list[tuple[str, bool]]:
    """Signed atoms implied by ``test`` having truth value ``pol`` (a conjunction)."""
    if isinstance(test, ast.UnaryOp) and isinstance(test.op, ast.Not):
        return atoms(test.operand, not pol)
    if isinstance(test, ast.BoolOp):
        if (isinstance(test.op, ast.And) and pol) or (isinstance(test.op, ast.Or) and not pol):
            out: list[tuple[str, bool]] = []
            for v in test.values:
                out += atoms(v, pol)
            return out
        return [(ast.unparse(test), pol)]
    p, flipped = positive(test)
    if flipped:
        return [(ast.unparse(p), not pol)]
    return [(ast.unparse(test), pol)]


class _Pass:
    changed = False


def _rewrite_block(body: list[ast.stmt], st: _Pass) -> list[ast.stmt]:
    # N1: expand conditional expressions at statement level
    out: list[ast.stmt] = []
    for s in body:
        if isinstance(s, ast.Return) and isinstance(s.value, ast.IfExp):
            e = s.value
            a = ast.copy_location(ast.Return(value=e.body), s)
            b = ast.copy_location(ast.Return(value=e.orelse), s)
            out.append(ast.copy_location(ast.If(test=e.test, body=[a], orelse=[b]), s))
            st.changed = True
        elif isinstance(s, ast.Return) and isinstance(s.value, ast.Call) and isinstance(s.value.func, ast.IfExp):
            # `return (A if c else B)(args)`: the callee is chosen first, then the arguments
            e = s.value.func
            ca, cb = clone(s.value), clone(s.value)
            ca.func, cb.func = e.body, e.orelse
            out.append(ast.copy_location(ast.If(test=e.test, body=[ast.copy_location(ast.Return(value=ca), s)], orelse=[ast.copy_location(ast.Return(value=cb), s)]), s))
            st.changed = True
        elif isinstance(s, ast.Assign) and isinstance(s.value, ast.IfExp) and len(s.targets) == 1:
            e = s.value
            a = ast.copy_location(ast.Assign(targets=[clone(s.targets[0])], value=e.body), s)
            b = ast.copy_location(ast.Assign(targets=[clone(s.targets[0])], value=e.orelse), s)
            out.append(ast.copy_location(ast.If(test=e.test, body=[a], orelse=[b]), s))
            st.changed = True
        else:
            out.append(s)
    body = out
    # recurse into compound statements first
    for s in body:
        for f in ("body", "orelse", "finalbody"):
            sub = getattr(s, f, None)
            if isinstance(sub, list) and sub and isinstance(sub[0], ast.stmt) and not isinstance(s, (ast.FunctionDef, ast.AsyncFunctionDef, ast.ClassDef)):
                setattr(s, f, _rewrite_block(sub, st))
        if isinstance(s, ast.Try):
            for h in s.handlers:
                h.body = _rewrite_block(h.body, st)
    # N11: `v = []` + `for t in it: [if c:] v.append(e)`  ->  `v = [e for t in it if c]`
    k = 0
    while k + 1 < len(body):
        a, f = body[k], body[k + 1]
        if isinstance(a, ast.AnnAssign) and isinstance(a.target, ast.Name) and isinstance(a.value, ast.List) and not a.value.elts and isinstance(f, (ast.For, ast.AsyncFor)):
            # `v: list[T] = []` is `v = []` for this purpose
            a = body[k] = ast.copy_location(ast.Assign(targets=[a.target], value=a.value), a)
        if (isinstance(a, ast.Assign) and len(a.targets) == 1 and isinstance(a.targets[0], ast.Name) and isinstance(a.value, ast.List) and not a.value.elts
                and isinstance(f, (ast.For, ast.AsyncFor)) and not f.orelse):
            v = a.targets[0].id
            gens: list[ast.comprehension] = []
            cur: ast.stmt | None = f
            elt = None
            while cur is not None:
                if isinstance(cur, (ast.For, ast.AsyncFor)) and not cur.orelse and len(cur.body) == 1:
                    gens.append(ast.comprehension(target=cur.target, iter=cur.iter, ifs=[], is_async=int(isinstance(cur, ast.AsyncFor))))
                    cur = cur.body[0]
                elif isinstance(cur, ast.If) and not cur.orelse and len(cur.body) == 1 and gens:
                    gens[-1].ifs.append(cur.test)
                    cur = cur.body[0]
                elif (isinstance(cur, ast.Expr) and isinstance(cur.value, ast.Call) and isinstance(cur.value.func, ast.Attribute) and cur.value.func.attr == "append"
                      and isinstance(cur.value.func.value, ast.Name) and cur.value.func.value.id == v and len(cur.value.args) == 1 and not cur.value.keywords):
                    elt = cur.value.args[0]
                    cur = None
                else:
                    gens = []
                    cur = None
            uses_v = elt is not None and any(isinstance(x, ast.Name) and x.id == v for g in gens for x in ast.walk(g)) or (elt is not None and any(isinstance(x, ast.Name) and x.id == v for x in ast.walk(elt)))
            if elt is not None and gens and not uses_v:
                a.value = ast.copy_location(ast.ListComp(elt=elt, generators=gens), a.value)
                del body[k + 1]
                st.changed = True
                continue
        k += 1
    # N13: `v = L; if v: return v; return R`  ->  `return L or R`   (`if not v` -> `L and R`)
    k = 0
    while k + 2 < len(body):
        a, c, r = body[k], body[k + 1], body[k + 2]
        if (isinstance(a, ast.Assign) and len(a.targets) == 1 and isinstance(a.targets[0], ast.Name) and isinstance(c, ast.If) and not c.orelse and len(c.body) == 1
                and isinstance(c.body[0], ast.Return) and isinstance(c.body[0].value, ast.Name) and c.body[0].value.id == a.targets[0].id and isinstance(r, ast.Return) and r.value is not None
                and not any(isinstance(x, ast.Name) and x.id == a.targets[0].id for x in ast.walk(r.value))):
            v = a.targets[0].id
            op: ast.boolop | None = None
            if isinstance(c.test, ast.Name) and c.test.id == v:
                op = ast.Or()
            elif isinstance(c.test, ast.UnaryOp) and isinstance(c.test.op, ast.Not) and isinstance(c.test.operand, ast.Name) and c.test.operand.id == v:
                op = ast.And()
            if op is not None:
                body[k:k + 3] = [ast.copy_location(ast.Return(value=ast.copy_location(ast.BoolOp(op=op, values=[a.value, r.value]), a.value)), a)]
                st.changed = True
                continue
        k += 1
    # N21: `a, b = X, Y` with plain X, Y (names / attributes / constants) that mention neither a
    #      nor b  ->  `a = X` ; `b = Y`
    k = 0
    while k < len(body):
        s0 = body[k]
        if (isinstance(s0, ast.Assign) and len(s0.targets) == 1 and isinstance(s0.targets[0], ast.Tuple) and isinstance(s0.value, ast.Tuple) and len(s0.targets[0].elts) == len(s0.value.elts)
                and all(isinstance(t_, ast.Name) for t_ in s0.targets[0].elts)):
            tn_ = {t_.id for t_ in s0.targets[0].elts}  # type: ignore[attr-defined]
            plain_ = all(isinstance(v_, (ast.Name, ast.Constant)) or (isinstance(v_, ast.Attribute) and isinstance(v_.value, ast.Name)) for v_ in s0.value.elts)
            if plain_ and not any(isinstance(x, ast.Name) and x.id in tn_ for v_ in s0.value.elts for x in ast.walk(v_)):
                body[k:k + 1] = [ast.copy_location(ast.Assign(targets=[t_], value=v_), s0) for t_, v_ in zip(s0.targets[0].elts, s0.value.elts)]
                st.changed = True
                continue
        k += 1
    # N18: a loop over a short literal table of constants with a straight-line body is the
    #      statements it spells out: `for a, b in (("<", "x"), (">", "y")): v = v.replace(a, b)`
    k = 0
    while k < len(body):
        f = body[k]
        if (isinstance(f, ast.For) and not f.orelse and isinstance(f.iter, (ast.Tuple, ast.List)) and 0 < len(f.iter.elts) <= 8
                and not any(isinstance(x, (ast.Break, ast.Continue, ast.For, ast.While, ast.AsyncFor, ast.Yield, ast.YieldFrom, ast.FunctionDef, ast.Lambda)) for s_ in f.body for x in ast.walk(s_))):
            tnames = [f.target.id] if isinstance(f.target, ast.Name) else ([e.id for e in f.target.elts] if isinstance(f.target, ast.Tuple) and all(isinstance(e, ast.Name) for e in f.target.elts) else None)
            rows = []
            for e in f.iter.elts:
                if isinstance(e, ast.Constant) and tnames is not None and len(tnames) == 1 and isinstance(f.target, ast.Name):
                    rows.append([e])
                elif isinstance(e, ast.Tuple) and tnames is not None and isinstance(f.target, ast.Tuple) and len(e.elts) == len(tnames) and all(isinstance(c_, ast.Constant) for c_ in e.elts):
                    rows.append(list(e.elts))
                else:
                    rows = None
                    break
            later = {x.id for s_ in body[k + 1:] for x in ast.walk(s_) if isinstance(x, ast.Name)}
            stored = {x.id for s_ in f.body for x in ast.walk(s_) if isinstance(x, ast.Name) and isinstance(x.ctx, ast.Store)}
            if rows and tnames and not (set(tnames) & later) and not (set(tnames) & stored):
                unrolled: list[ast.stmt] = []
                for row in rows:
                    sub = dict(zip(tnames, row))

                    class _U(ast.NodeTransformer):
                        def visit_Name(self, n: ast.Name) -> ast.AST:
                            return clone(sub[n.id]) if n.id in sub and isinstance(n.ctx, ast.Load) else n

                    unrolled += [ast.fix_missing_locations(_U().visit(clone(s_))) for s_ in f.body]
                body[k:k + 1] = unrolled
                st.changed = True
                continue
        k += 1
    # N19: `v = A` ; `v = v.m(...)`  ->  `v = A.m(...)` (v is the receiver at the head of the
    #      second value, so it is evaluated first there as well, and read nowhere else in it)
    k = 0
    while k + 1 < len(body):
        a, b = body[k], body[k + 1]
        if (isinstance(a, ast.Assign) and isinstance(b, ast.Assign) and len(a.targets) == 1 and len(b.targets) == 1 and isinstance(a.targets[0], ast.Name)
                and isinstance(b.targets[0], ast.Name) and a.targets[0].id == b.targets[0].id):
            v = a.targets[0].id
            uses = [x for x in ast.walk(b.value) if isinstance(x, ast.Name) and x.id == v]
            head: ast.AST = b.value
            while isinstance(head, (ast.Call, ast.Attribute, ast.Subscript)):
                head = head.func if isinstance(head, ast.Call) else head.value
            if len(uses) == 1 and head is uses[0] and not isinstance(b.value, ast.Name):
                par = getattr(head, "_parent", None)

                class _H(ast.NodeTransformer):
                    def visit_Name(self, n: ast.Name) -> ast.AST:
                        return a.value if n is head else n

                b.value = _H().visit(b.value)
                del body[k]
                st.changed = True
                continue
        k += 1
    # N15: `if c: ...; v = X` ; `return v`  ->  `if c: ...; return X else: return v`
    #      (the return is duplicated into both paths; the store that is immediately returned
    #      is dead afterwards).  N16: `v = X` ; `return v`  ->  `return X`
    k = 0
    while k + 1 < len(body):
        c, r = body[k], body[k + 1]
        if (isinstance(c, ast.If) and not c.orelse and c.body and isinstance(r, ast.Return) and isinstance(r.value, ast.Name) and isinstance(c.body[-1], ast.Assign)
                and len(c.body[-1].targets) == 1 and isinstance(c.body[-1].targets[0], ast.Name) and c.body[-1].targets[0].id == r.value.id and k + 2 == len(body)):
            last_ = c.body.pop()
            c.body.append(ast.copy_location(ast.Return(value=last_.value), last_))  # (N16 at once: N7 would hoist an equal tail back out)
            c.orelse = [r]
            del body[k + 1]
            st.changed = True
            continue
        k += 1
    k = 0
    while k + 1 < len(body):
        a, r = body[k], body[k + 1]
        if (isinstance(a, ast.Assign) and len(a.targets) == 1 and isinstance(a.targets[0], ast.Name) and isinstance(r, ast.Return) and isinstance(r.value, ast.Name)
                and r.value.id == a.targets[0].id):
            body[k:k + 2] = [ast.copy_location(ast.Return(value=a.value), a)]
            st.changed = True
            continue
        k += 1
    # N14: `if c: v = A else: v = B` ; `return f(v)`  ->  `if c: return f(A) else: return f(B)`
    #      for plain A / B (names, attributes, constants: reading them is pure) and v read once
    k = 0
    while k + 1 < len(body):
        c, r = body[k], body[k + 1]
        if isinstance(c, ast.If) and c.body and c.orelse and isinstance(r, ast.Return) and r.value is not None:
            la, lb = c.body[-1], c.orelse[-1]
            plain = lambda e: isinstance(e, (ast.Name, ast.Constant)) or (isinstance(e, ast.Attribute) and isinstance(e.value, ast.Name))  # noqa: E731
            if (isinstance(la, ast.Assign) and isinstance(lb, ast.Assign) and len(la.targets) == 1 and len(lb.targets) == 1 and isinstance(la.targets[0], ast.Name)
                    and isinstance(lb.targets[0], ast.Name) and la.targets[0].id == lb.targets[0].id and plain(la.value) and plain(lb.value)):
                v = la.targets[0].id
                uses = [x for x in ast.walk(r.value) if isinstance(x, ast.Name) and x.id == v]
                if len(uses) == 1 and isinstance(uses[0].ctx, ast.Load):
                    def _sub(val: ast.expr) -> ast.Return:
                        new = clone(r)

                        class _S(ast.NodeTransformer):
                            def visit_Name(self, n: ast.Name) -> ast.AST:
                                return clone(val) if n.id == v else n

                        return ast.fix_missing_locations(_S().visit(new))

                    c.body[-1] = _sub(la.value)
                    c.orelse[-1] = _sub(lb.value)
                    del body[k + 1]
                    st.changed = True
                    continue
        k += 1
    # N10: a `continue` that ends a loop body (directly, or as the whole handler of a try that
    #      ends it) does nothing
    for s in body:
        if isinstance(s, (ast.For, ast.AsyncFor, ast.While)) and s.body:
            tail_ = s.body[-1]
            if isinstance(tail_, ast.Continue) and len(s.body) > 1:
                s.body.pop()
                st.changed = True
            elif isinstance(tail_, ast.If) and len(tail_.orelse) == 1 and isinstance(tail_.orelse[0], ast.Continue):
                tail_.orelse = []
                st.changed = True
            elif isinstance(tail_, ast.If) and tail_.orelse and len(tail_.body) == 1 and isinstance(tail_.body[0], ast.Continue):
                p_, fl_ = positive(tail_.test)
                tail_.test = p_ if fl_ else ast.copy_location(ast.UnaryOp(op=ast.Not(), operand=tail_.test), tail_.test)
                tail_.body, tail_.orelse = tail_.orelse, []
                st.changed = True
            elif isinstance(tail_, ast.Try) and not tail_.finalbody and not tail_.orelse:
                for h in tail_.handlers:
                    if len(h.body) == 1 and isinstance(h.body[0], ast.Continue):
                        h.body[0] = ast.copy_location(ast.Pass(), h.body[0])
                        st.changed = True
    # N8: `try: B except: <leaves> else: E`  ->  `try: B except: <leaves>` ; E
    # N9: `try: ...; v = X except: <leaves>` ; `return v`  ->  `try: ...; return X except: <leaves>`
    #     (returning a local cannot raise, so both are exact)
    j = 0
    while j < len(body):
        s = body[j]
        if isinstance(s, ast.Try) and s.handlers and not s.finalbody and all(_leaves(h.body) for h in s.handlers):
            if s.orelse:
                body[j + 1:j + 1] = s.orelse
                s.orelse = []
                st.changed = True
            nxt = body[j + 1] if j + 1 < len(body) else None
            last = s.body[-1] if s.body else None
            if (isinstance(nxt, ast.Return) and isinstance(nxt.value, ast.Name) and isinstance(last, ast.Assign) and len(last.targets) == 1
                    and isinstance(last.targets[0], ast.Name) and last.targets[0].id == nxt.value.id):
                s.body[-1] = ast.copy_location(ast.Return(value=last.value), last)
                del body[j + 1]
                st.changed = True
        j += 1
    # N2: else after a leaving branch
    i = 0
    while i < len(body):
        s = body[i]
        if isinstance(s, ast.If) and not s.orelse and _leaves(s.body) and i + 1 < len(body):
            s.orelse = body[i + 1:]
            body = body[: i + 1]
            st.changed = True
            s.orelse = _rewrite_block(s.orelse, st)
            break
        i += 1
    # N7: a statement that ends both branches is written once, after the if
    out2: list[ast.stmt] = []
    for s in body:
        tail: list[ast.stmt] = []
        if isinstance(s, ast.If) and s.body and s.orelse:
            while s.body and s.orelse and ast.dump(s.body[-1]) == ast.dump(s.orelse[-1]):
                tail.insert(0, s.body.pop())
                s.orelse.pop()
                st.changed = True
            if tail:
                if not s.body and not s.orelse:
                    pure_test = not any(isinstance(x, (ast.Call, ast.Await, ast.Yield, ast.YieldFrom, ast.NamedExpr)) for x in ast.walk(s.test))
                    if pure_test:
                        out2.extend(tail)
                        continue
                    s.body = [ast.copy_location(ast.Pass(), s)]
                elif not s.body:
                    p_, flipped_ = positive(s.test)
                    s.test = p_ if flipped_ else ast.copy_location(ast.UnaryOp(op=ast.Not(), operand=s.test), s.test)
                    s.body, s.orelse = s.orelse, []
        out2.append(s)
        out2.extend(tail)
    body = out2
    for s in body:
        if isinstance(s, ast.If):
            # N3: positive tests
            if s.orelse:
                p, flipped = positive(s.test)
                if flipped:
                    s.test = p
                    s.body, s.orelse = s.orelse, s.body
                    st.changed = True
            # N4: merge nested ifs
            if not s.orelse and len(s.body) == 1 and isinstance(s.body[0], ast.If) and not s.body[0].orelse:
                inner = s.body[0]
                s.test = ast.copy_location(ast.BoolOp(op=ast.And(), values=[s.test, inner.test]), s.test)
                s.body = inner.body
                st.changed = True
    return body


class _IfExpPositive(ast.NodeTransformer):
    def __init__(self, st: _Pass) -> None:
        self.st = st

    def visit_IfExp(self, node: ast.IfExp) -> ast.AST:
        self.generic_visit(node)
        p, flipped = positive(node.test)
        if flipped:
            node.test = p
            node.body, node.orelse = node.orelse, node.body
            self.st.changed = True
        return node


def _inline_single_use(fn: ast.AST, st: _Pass, strict: bool = False) -> None:
    params = {a.arg for a in fn.args.posonlyargs + fn.args.args + fn.args.kwonlyargs}  # type: ignore[attr-defined]
    if fn.args.vararg:  # type: ignore[attr-defined]
        params.add(fn.args.vararg.arg)  # type: ignore[attr-defined]
    if fn.args.kwarg:  # type: ignore[attr-defined]
        params.add(fn.args.kwarg.arg)  # type: ignore[attr-defined]
    set_parents(fn)
    stores: dict[str, list[ast.AST]] = {}
    loads: dict[str, list[ast.Name]] = {}
    special: set[str] = set()
    for n in ast.walk(fn):
        if isinstance(n, (ast.Global, ast.Nonlocal)):
            special.update(n.names)
        elif isinstance(n, ast.Name):
            if isinstance(n.ctx, ast.Load):
                loads.setdefault(n.id, []).append(n)
            else:
                stores.setdefault(n.id, []).append(n)
        elif isinstance(n, ast.arg) and n is not fn:
            pass

    def enclosing(node: ast.AST, kinds: tuple) -> list[ast.AST]:  # type: ignore[type-arg]
        out = []
        child = node
        cur = getattr(node, "_parent", None)
        while cur is not None and cur is not fn:
            if isinstance(cur, kinds):
                # the iterable of a comprehension's first generator (and of a for statement)
                # is evaluated once, outside the repetition
                once = (isinstance(cur, (ast.For, ast.AsyncFor)) and child is cur.iter)
                if not once:
                    out.append(cur)
            if isinstance(cur, ast.comprehension):
                comp = getattr(cur, "_parent", None)
                if comp is not None and comp.generators and comp.generators[0] is cur and child is cur.iter:
                    # skip the comprehension node itself
                    child, cur = comp, getattr(comp, "_parent", None)
                    continue
            child = cur
            cur = getattr(cur, "_parent", None)
        return out

    loopish = (ast.For, ast.AsyncFor, ast.While, ast.ListComp, ast.SetComp, ast.DictComp, ast.GeneratorExp, ast.Lambda, ast.FunctionDef, ast.AsyncFunctionDef)
    written = set()
    for n in ast.walk(fn):
        if isinstance(n, (ast.Attribute, ast.Subscript, ast.Name)) and isinstance(getattr(n, "ctx", None), (ast.Store, ast.Del)):
            written.add(ast.unparse(n))

    def pure(e: ast.AST) -> bool:
        """A value that may be repeated at every use: no calls except len / isinstance / str,
        and nothing it reads is written anywhere in the function."""
        for x in ast.walk(e):
            if isinstance(x, ast.Call):
                if not (isinstance(x.func, ast.Name) and x.func.id in ("len", "isinstance", "str", "type")):
                    return False
            elif isinstance(x, (ast.Await, ast.Yield, ast.YieldFrom, ast.NamedExpr, ast.Lambda, ast.ListComp, ast.SetComp, ast.DictComp, ast.GeneratorExp, ast.List, ast.Dict, ast.Set)):
                return False
            elif isinstance(x, (ast.Attribute, ast.Subscript, ast.Name)) and ast.unparse(x) in written:
                return False
        return True

    for name, ss in stores.items():
        uses = loads.get(name, [])
        if name in params or name in special or len(ss) != 1 or not uses:
            continue
        tgt = ss[0]
        asg = getattr(tgt, "_parent", None)
        if not (isinstance(asg, ast.Assign) and len(asg.targets) == 1 and asg.targets[0] is tgt):
            continue
        if len(uses) != 1 and not pure(asg.value):
            continue
        if any((u.lineno, u.col_offset) <= (asg.lineno, asg.col_offset) for u in uses):
            continue
        # no use may sit in a loop / closure that the assignment is outside of (single use only:
        # a pure value can be repeated anywhere)
        if len(uses) == 1 and not pure(asg.value) and [x for x in enclosing(uses[0], loopish) if x not in enclosing(asg, loopish)]:
            continue
        # a value that awaits / yields stays where it is - unless its single use is in the very
        # next statement and nothing else with an effect is evaluated there (the other operands
        # are plain reads, the only calls are the ones the value is an argument of)
        if any(isinstance(x, (ast.Yield, ast.YieldFrom, ast.NamedExpr)) for x in ast.walk(asg.value)):
            continue
        if any(isinstance(x, ast.Await) for x in ast.walk(asg.value)):
            if len(uses) != 1:
                continue
            ust = uses[0]
            anc: list[ast.AST] = []
            while ust is not None and not isinstance(ust, ast.stmt):
                anc.append(ust)
                ust = getattr(ust, "_parent", None)
            holder_ = getattr(asg, "_parent", None)
            nxt_ok = False
            for f_ in ("body", "orelse", "finalbody"):
                seq_ = getattr(holder_, f_, None)
                if isinstance(seq_, list) and asg in seq_:
                    i_ = seq_.index(asg)
                    nxt_ok = i_ + 1 < len(seq_) and seq_[i_ + 1] is ust
            if not nxt_ok or not isinstance(ust, (ast.Return, ast.Expr, ast.Assign)):
                continue
            others = [y for y in ast.walk(ust) if isinstance(y, (ast.Call, ast.Await, ast.Yield, ast.YieldFrom, ast.Lambda, ast.ListComp, ast.GeneratorExp, ast.SetComp, ast.DictComp)) and y not in anc]
            if others or any(isinstance(y, ast.Call) and not all(isinstance(z, (ast.Name, ast.Attribute, ast.Load)) for z in ast.walk(y.func)) for y in anc):
                continue
        # between the binding and its use no name that the value reads may be rebound: the
        # value would mean something else where it is re-written (any mode)
        reads_ = {x.id for x in ast.walk(asg.value) if isinstance(x, ast.Name)}
        own_ = {id(x) for x in ast.walk(asg.value)}  # (a comprehension's own targets are not rebinding)
        last_u = max(uses, key=lambda u: (u.lineno, u.col_offset))
        if any(isinstance(x, ast.Name) and isinstance(x.ctx, (ast.Store, ast.Del)) and x.id in reads_ and id(x) not in own_ and (asg.lineno, asg.col_offset) < (x.lineno, x.col_offset) < (last_u.lineno, last_u.col_offset) for x in ast.walk(fn)):
            continue

        # a value computed inside a try body stays inside it (its exceptions are handled there)
        def try_parts(node: ast.AST) -> list[tuple[int, str]]:
            out_: list[tuple[int, str]] = []
            child_, cur_ = node, getattr(node, "_parent", None)
            while cur_ is not None and cur_ is not fn:
                if isinstance(cur_, ast.Try):
                    part = "body" if child_ in cur_.body else ("orelse" if child_ in cur_.orelse else ("final" if child_ in cur_.finalbody else "handler"))
                    out_.append((id(cur_), part))
                child_, cur_ = cur_, getattr(cur_, "_parent", None)
            return out_

        asg_tp = try_parts(asg)
        if any(tp not in try_parts(u) for u in uses for tp in asg_tp):
            continue
        # nothing with an effect may lie between the binding and its (last) use: the value must
        # mean the same thing where it is re-written
        last = max(uses, key=lambda u: (u.lineno, u.col_offset))
        last_stmt = last
        while last_stmt is not None and not isinstance(last_stmt, ast.stmt):
            last_stmt = getattr(last_stmt, "_parent", None)
        between_bad = False
        for x in ast.walk(fn):
            if not isinstance(x, ast.stmt) or x is asg or x is fn:
                continue
            pos = (getattr(x, "lineno", 0), getattr(x, "col_offset", 0))
            if not ((asg.lineno, asg.col_offset) < pos < (last_stmt.lineno, last_stmt.col_offset)):  # type: ignore[union-attr]
                continue
            if isinstance(x, (ast.If, ast.For, ast.AsyncFor, ast.While, ast.Try, ast.With, ast.AsyncWith)):
                heads = [getattr(x, "test", None), getattr(x, "iter", None)] + [i.context_expr for i in getattr(x, "items", [])]
                exprs = [h for h in heads if h is not None]
            else:
                exprs = [x]
            for e_ in exprs:
                for y in ast.walk(e_):
                    if isinstance(y, (ast.Await, ast.Yield, ast.YieldFrom)) or (isinstance(y, ast.Call) and not (isinstance(y.func, ast.Name) and y.func.id in ("len", "isinstance", "str", "type", "hasattr"))):
                        between_bad = True
                    elif isinstance(y, (ast.Attribute, ast.Subscript)) and isinstance(getattr(y, "ctx", None), (ast.Store, ast.Del)):
                        between_bad = True
        if between_bad and strict:
            # (strict = whole-module normalisation; a rule that opts in with norm() reads the
            # result for matching only and is reviewed against this re-ordering)
            continue
        replaced = 0
        for use in uses:
            par = getattr(use, "_parent", None)
            val = asg.value if replaced == 0 else clone(asg.value)
            done = False
            for f in par._fields if par is not None else ():
                v = getattr(par, f, None)
                if v is use:
                    setattr(par, f, val)
                    done = True
                elif isinstance(v, list):
                    for i, x in enumerate(v):
                        if x is use:
                            v[i] = val
                            done = True
            replaced += 1 if done else 0
        if replaced != len(uses):
            continue
        holder = getattr(asg, "_parent", None)
        for f in ("body", "orelse", "finalbody"):
            seq = getattr(holder, f, None)
            if isinstance(seq, list) and asg in seq:
                seq.remove(asg)
                if not seq:
                    seq.append(ast.copy_location(ast.Pass(), asg))
        st.changed = True
        return  # one at a time: positions and parents changed


def alpha(fn: ast.AST) -> ast.AST:
    """Rename the locals of ``fn`` (in place) to _v0, _v1, ... in order of first binding, so
    that two functions that differ only in the names of their locals compare equal."""
    params = {a.arg for a in fn.args.posonlyargs + fn.args.args + fn.args.kwonlyargs}  # type: ignore[attr-defined]
    for extra in (fn.args.vararg, fn.args.kwarg):  # type: ignore[attr-defined]
        if extra is not None:
            params.add(extra.arg)
    order: list[str] = []
    special: set[str] = set()
    nodes_ = sorted((n for n in ast.walk(fn) if isinstance(n, (ast.Name, ast.Global, ast.Nonlocal, ast.ExceptHandler))), key=lambda n: (getattr(n, "lineno", 0), getattr(n, "col_offset", 0)))
    for n in nodes_:
        if isinstance(n, (ast.Global, ast.Nonlocal)):
            special.update(n.names)
        elif isinstance(n, ast.ExceptHandler):
            if n.name and n.name not in order:
                order.append(n.name)
        elif isinstance(n.ctx, (ast.Store, ast.Del)) and n.id not in params and n.id not in order:
            order.append(n.id)
    ren = {name: f"_v{i}" for i, name in enumerate(x for x in order if x not in special)}
    for n in ast.walk(fn):
        if isinstance(n, ast.Name) and n.id in ren:
            n.id = ren[n.id]
        elif isinstance(n, ast.ExceptHandler) and n.name in ren:
            n.name = ren[n.name]
    return fn


def normalize_tree(tree: ast.AST) -> None:
    """Bring every function of a module into normal form, in place (innermost first)."""
    fns = [n for n in ast.walk(tree) if isinstance(n, (ast.FunctionDef, ast.AsyncFunctionDef))]
    for fn in reversed(fns):
        _normalize_inplace(fn)
        fn._normal = True  # type: ignore[attr-defined]
    set_parents(tree)
    tree._parent = None  # type: ignore[attr-defined]


def _strip_trailing_return(body: list[ast.stmt], st: _Pass) -> None:
    """N12: a bare `return` (or `return None`) that ends the function does nothing - at the end
    of the body, or at the end of the branches of an if that ends it."""
    if not body:
        return
    last = body[-1]
    if isinstance(last, ast.Return) and (last.value is None or (isinstance(last.value, ast.Constant) and last.value.value is None)) and len(body) > 1:
        body.pop()
        st.changed = True
        return
    if isinstance(last, ast.If):
        for branch in (last.body, last.orelse):
            if len(branch) == 1 and isinstance(branch[0], ast.Return) and branch[0].value is None:
                branch[0] = ast.copy_location(ast.Pass(), branch[0])
                st.changed = True
            else:
                _strip_trailing_return(branch, st)
        if last.orelse and all(isinstance(x, ast.Pass) for x in last.orelse):
            last.orelse = []
            st.changed = True
        elif last.body and all(isinstance(x, ast.Pass) for x in last.body) and last.orelse:
            p_, fl_ = positive(last.test)
            last.test = p_ if fl_ else ast.copy_location(ast.UnaryOp(op=ast.Not(), operand=last.test), last.test)
            last.body, last.orelse = last.orelse, []
            st.changed = True


def _returns_value(fn: ast.AST) -> bool:
    return any(isinstance(x, ast.Return) and x.value is not None and not (isinstance(x.value, ast.Constant) and x.value.value is None) for x in ast.walk(fn))


def _normalize_inplace(new: ast.AST) -> None:
    for _ in range(50):
        any_change = False
        for _i in range(300):
            st = _Pass()
            _inline_single_use(new, st, strict=True)
            if not st.changed:
                break
            any_change = True
        for _i in range(300):
            st = _Pass()
            new.body = _rewrite_block(new.body, st)  # type: ignore[attr-defined]
            _IfExpPositive(st).visit(new)
            _strip_trailing_return(new.body, st)  # type: ignore[attr-defined]
            if not st.changed:
                break
            any_change = True
        if not any_change:
            break
    ast.fix_missing_locations(new)


def norm(fn: ast.AST) -> ast.AST:
    """Normal form of a function definition (cached per node)."""
    if getattr(fn, "_normal", False):
        return fn
    key = id(fn)
    hit = _CACHE.get(key)
    if hit is not None and getattr(hit, "_orig", None) is fn:
        return hit
    new = clone(fn)
    for _ in range(50):
        any_change = False
        # N5 first: `x = a if c else b; f(x)` must become f(a if c else b), not two assignments
        for _i in range(300):
            st = _Pass()
            _inline_single_use(new, st)
            if not st.changed:
                break
            any_change = True
        for _i in range(300):
            st = _Pass()
            new.body = _rewrite_block(new.body, st)
            _IfExpPositive(st).visit(new)
            _strip_trailing_return(new.body, st)  # type: ignore[attr-defined]
            if not st.changed:
                break
            any_change = True
        if not any_change:
            break
    ast.fix_missing_locations(new)
    set_parents(new)
    new._parent = getattr(fn, "_parent", None)
    new._orig = fn
    _CACHE[key] = new
    return new
