"""Shared effect rules (engine E3): no registered filter / test / runtime helper mutates an
object owned by its caller (template data, environment, context)."""

from __future__ import annotations

import ast

from .core import Ctx
from .flow import FlowAnalysis
from .flow import analyse_module_functions
from .srcmodel import AnalysisError


def registered(ctx: Ctx, module: str, table: str) -> dict[str, str]:
    """key -> function name for table entries that are functions of the module."""
    tab = ctx.repo.const_map(f"{module}:{table}")
    m = ctx.repo.module(module)
    out = {}
    for k, v in tab.items():
        if v in m.defs and isinstance(m.defs[v], (ast.FunctionDef, ast.AsyncFunctionDef)):
            out[k] = v
    return out


def twins(ctx: Ctx) -> dict[str, str]:
    """async def name -> sync twin name, from ``@async_variant(sync_f)`` decorators."""
    m = ctx.repo.module("filters")
    out = {}
    for name, d in m.defs.items():
        if isinstance(d, ast.AsyncFunctionDef):
            for dec in d.decorator_list:
                if isinstance(dec, ast.Call) and ast.unparse(dec.func) == "async_variant" and dec.args:
                    out[name] = ast.unparse(dec.args[0])
    return out


def no_argument_mutation(ctx: Ctx, rid: str, min_entries: int = 60) -> None:
    ctx.rule(rid, "no registered filter/test (sync or async twin, helpers included with call-site argument origins) mutates an object owned by its caller: item/attribute store or delete, in-place augmented assignment, mutating method call on a parameter or something reached from it")
    repo = ctx.repo
    total = 0
    for module, table in (("filters", "FILTERS"), ("tests", "TESTS")):
        m = repo.module(module)
        funcs = {n: d for n, d in m.defs.items() if isinstance(d, (ast.FunctionDef, ast.AsyncFunctionDef))}
        reg = registered(ctx, module, table)
        entries = sorted(set(reg.values()))
        if module == "filters":
            tw = twins(ctx)
            entries = sorted(set(entries) | {tw[e] for e in entries if e in tw})
        if not entries:
            raise AnalysisError(f"{module}.{table} has no package functions")
        res = analyse_module_functions(funcs, entries)
        for name in sorted(res):
            muts, params = res[name]
            total += 1
            if not muts:
                ctx.ok(f"{module}:{name}", detail={"function": name, "kind": "entry" if name in entries else "helper", "param_origins": {k: sorted(v) for k, v in params.items()}} if name in ("prepare_map", "do_tojson", "sync_do_join") else None)
            seen = set()
            for mu in muts:
                key = (mu.name, mu.kind)
                if key in seen:
                    continue
                seen.add(key)
                ctx.bad(f"{module}:{name}", f"{mu.kind} on {mu.name}",
                        f"{name} performs {mu.kind} on `{mu.name}`, which may be the caller's object ({', '.join(sorted(mu.origins))}): rendering modifies its input",
                        f"{m.rel}:{getattr(mu.node, 'lineno', 0)}")
    ctx.floor("filter/test functions analysed", total, min_entries)


def analyse_function(ctx: Ctx, spec: str):  # type: ignore[no-untyped-def]
    fi = ctx.repo.func(spec)
    return fi, FlowAnalysis(fi.node)
