"""Rules over the lexer shared by C11, C12 and C39."""

from __future__ import annotations

import ast
import typing as t

from . import astq
from .cfg import guards_of
from .core import Ctx
from .lexmodel import PH_L
from .lexmodel import PH_R
from .lexmodel import LexModel
from .lexmodel import configs
from .lexmodel import named_groups
from .lexmodel import parse_re


def ph(attr: str) -> str:
    return f"{PH_L}{attr}{PH_R}"


def newline_rules(ctx: Ctx, rid: str) -> None:
    ctx.rule(rid, "line breaks: newline_re's alternatives are ordered so that no earlier one is a proper prefix of a later one (\\r\\n is one break); data and string tokens pass _normalize_newlines; source lines are re-joined with \\n")
    import re._constants as sc  # type: ignore[import-not-found]

    lm = LexModel(ctx.repo, configs()[0])
    pat = lm.module_regex("newline_re")
    alts: list[str] = []

    def lit(items) -> str | None:  # type: ignore[no-untyped-def]
        out = ""
        for op, av in items:
            if op is sc.LITERAL:
                out += chr(av)
            else:
                return None
        return out

    def collect(items) -> None:  # type: ignore[no-untyped-def]
        for op, av in items:
            if op is sc.SUBPATTERN:
                collect(av[3])
            elif op is sc.BRANCH:
                for a in av[1]:
                    s = lit(a)
                    if s is None:
                        alts.append("?")
                    else:
                        alts.append(s)
            elif op is sc.IN:
                # a character class: single characters, no prefix problem
                for o2, a2 in av:
                    if o2 is sc.LITERAL:
                        alts.append(chr(a2))

    collect(parse_re(pat))
    if not alts:
        # sre factors common prefixes: (\r\n|\r|\n) becomes \r(?:\n)? | \n - read the literal instead
        import re as _re

        alts = [a.encode().decode("unicode_escape") for a in _re.findall(r"\\r\\n|\\r|\\n", pat.pattern)]
    # what counts as a line break: exactly \r\n, \r and \n (decided on the automaton of the pattern)
    from .rx import DFA
    from .rx import counterexample_not_subset

    ab = ["\r", "\n", "a", " "]
    d_pat, d_ref = DFA(pat.pattern, pat.flags, ab), DFA(r"\r\n|\r|\n", 0, ab)
    extra, missing = counterexample_not_subset(d_pat, d_ref), counterexample_not_subset(d_ref, d_pat)
    ctx.check(extra is None and missing is None, "newline_re:language", "lexer:<module>", "newline_re does not match exactly the three line break forms",
              f"newline_re = {pat.pattern!r} {'also matches ' + repr(extra) if extra is not None else ''}{' does not match ' + repr(missing) if missing is not None else ''}: source lines are split and counted with it and template data is normalised with it - a lone \\r (classic Mac line ends) must be a line break like \\n, otherwise trim_blocks / lstrip_blocks / line statements stop working for such sources while LF sources work",
              "src/jinja2/lexer.py", detail={"pattern": pat.pattern, "also_matches": extra, "does_not_match": missing})
    if len(alts) < 3:
        return
    # literal order in the pattern text decides leftmost-first matching
    import re as _re

    order = [a.encode().decode("unicode_escape") for a in _re.findall(r"\\r\\n|\\r|\\n", pat.pattern)]
    bad = [(a, b) for i, a in enumerate(order) for b in order[i + 1:] if b.startswith(a) and a != b]
    ctx.check(set(order) == {"\r\n", "\r", "\n"} and not bad, "newline_re:order", "lexer:<module>", "newline_re alternative order",
              f"newline_re = {pat.pattern!r}: alternatives {order!r}; an earlier alternative is a prefix of a later one {bad!r}, so \\r\\n would be split into two line breaks", "src/jinja2/lexer.py", detail={"pattern": pat.pattern, "alternatives": [repr(x) for x in order]})
    nn = ctx.repo.func("lexer:Lexer._normalize_newlines")
    r = astq.returns(nn.nnode)
    ctx.check(len(r) == 1 and ast.unparse(r[0].value) == "newline_re.sub(self.newline_sequence, value)", "_normalize_newlines", "lexer:Lexer._normalize_newlines", "normalisation", "_normalize_newlines must replace every line break with self.newline_sequence", nn.loc())
    wrap = ctx.repo.func("lexer:Lexer.wrap")
    for tok, frag in (("TOKEN_DATA", "value = self._normalize_newlines(value_str)"), ("TOKEN_STRING", "self._normalize_newlines(value_str[1:-1])")):
        hit = [n for n in ast.walk(wrap.node) if isinstance(n, ast.If) and ast.unparse(n.test) == f"token == {tok}"]
        ok = len(hit) == 1 and frag in ast.unparse(ast.Module(body=hit[0].body, type_ignores=[]))
        ctx.check(ok, f"wrap:{tok}", "lexer:Lexer.wrap", f"{tok} normalised", f"{tok} values must pass _normalize_newlines", wrap.loc())
    ti = ctx.repo.func("lexer:Lexer.tokeniter")
    s = ast.unparse(ti.node)
    ctx.check("lines = newline_re.split(source)[::2]" in s and "source = '\\n'.join(lines)" in s, "tokeniter:join", "lexer:Lexer.tokeniter", "line split / join", "tokeniter must split on newline_re (dropping the separators) and re-join with \\n", ti.loc())
    dels = [n for n in ast.walk(ti.node) if isinstance(n, ast.Delete) and "lines" in ast.unparse(n)]
    ok = len(dels) == 1 and ast.unparse(dels[0]) == "del lines[-1]" and sorted(astq.guard_atoms(ti.node, dels[0])) == [("lines[-1] == ''", True), ("self.keep_trailing_newline", False)]
    ctx.check(ok, "tokeniter:trailing", "lexer:Lexer.tokeniter", "trailing newline removal", "exactly one trailing empty line is removed, and only when keep_trailing_newline is off", ti.loc())


def string_pipeline_rule(ctx: Ctx, rid: str) -> None:
    ctx.rule(rid, "string literals are converted by exactly: strip quotes -> normalise newlines -> encode('ascii', 'backslashreplace') -> decode('unicode-escape'); no other transformation touches the text; failures map to TemplateSyntaxError")
    wrap = ctx.repo.func("lexer:Lexer.wrap")
    hit = [n for n in ast.walk(wrap.node) if isinstance(n, ast.If) and ast.unparse(n.test) == "token == TOKEN_STRING"]
    ctx.need(len(hit) == 1, "TOKEN_STRING branch of Lexer.wrap not found")
    body = ast.Module(body=hit[0].body, type_ignores=[])
    calls = [astq.attr_tail(c) for c in astq.calls(body) if "value" in ast.unparse(c) and astq.attr_tail(c) not in ("TemplateSyntaxError", "str", "split", "strip")]
    allowed = {"_normalize_newlines", "encode", "decode"}
    extra = [c for c in calls if c not in allowed]
    ctx.check(not extra and set(calls) == allowed, "pipeline", "lexer:Lexer.wrap", f"string conversion calls {sorted(set(calls))}",
              f"the string literal text passes through {calls}: any additional rewrite of the text before the unicode-escape decode (e.g. {extra}) changes which value a spelling denotes relative to Python", wrap.loc(hit[0]), detail={"calls": calls})
    src = ast.unparse(body)
    ctx.check(".encode('ascii', 'backslashreplace').decode('unicode-escape')" in src and "value_str[1:-1]" in src, "pipeline:codec", "lexer:Lexer.wrap", "codec", "the escape decoding must be ascii/backslashreplace -> unicode-escape on the text between the quotes", wrap.loc())
    hs = [h for h in ast.walk(body) if isinstance(h, ast.ExceptHandler)]
    ctx.check(len(hs) == 1 and ast.unparse(hs[0].type) == "Exception" and any(astq.raise_type(r) == "TemplateSyntaxError" for r in astq.raises(hs[0])), "pipeline:errors", "lexer:Lexer.wrap", "error mapping", "a failing unescape must become a TemplateSyntaxError", wrap.loc())
    # regex-level preprocessing helpers on string text would show up as module regexes used in wrap
    names = {n.id for n in ast.walk(body) if isinstance(n, ast.Name)}
    regexes = {k for k, v in ctx.repo.module("lexer").assigns.items() if isinstance(v, ast.Call) and astq.callee(v) == "re.compile"}
    used = sorted(names & regexes)
    ctx.check(not used, "pipeline:no-regex", "lexer:Lexer.wrap", f"regex {used} applied to string text", f"the string branch applies the regex(es) {used} to the literal text", wrap.loc())


def comment_raw_rules(ctx: Ctx, rid: str) -> None:
    ctx.rule(rid, "comments yield only ignored tokens; raw_begin / raw_end are dropped and the raw body is a data token; data becomes TemplateData and never passes through finalize")
    repo = ctx.repo
    ignored = repo.const("lexer:ignored_tokens")
    for cfg in configs()[:2]:
        lm = LexModel(repo, cfg)
        for state in ("comment_begin", "linecomment_begin"):
            if state not in lm.rules:
                continue
            for rule in lm.rules[state]:
                toks = rule.tokens if isinstance(rule.tokens, tuple) else (rule.tokens,)
                for t_ in toks:
                    if isinstance(t_, str) and not t_.startswith("#"):
                        ctx.check(t_ in ignored, f"{state}:{t_}", "lexer:Lexer.__init__", f"{state} token {t_}", f"the comment state yields {t_!r}, which is not in ignored_tokens: comment text would reach the parser", "src/jinja2/lexer.py")
        raw = lm.rules["raw_begin"][0]
        ctx.check(raw.tokens == ("OLS", "data", "raw_end") and raw.command == "#pop", "raw:tokens", "lexer:Lexer.__init__", "raw body tokens", f"the raw state must yield (data, raw_end) and pop; got {raw.tokens}", "src/jinja2/lexer.py")
        for must in ("comment_begin", "linecomment_begin", "raw_begin"):
            pass
    wrap = repo.func("lexer:Lexer.wrap")
    s = ast.unparse(wrap.node)
    # every token wrap hands on passed both drop tests (written as one test, as an if / elif
    # chain of `continue`s, or as separate guards)
    RAWT = "token in (TOKEN_RAW_BEGIN, TOKEN_RAW_END)"
    drop_ok = True
    ys_w = [y for y in ast.walk(wrap.node) if isinstance(y, ast.Yield)]
    conts = [c_ for c_ in ast.walk(wrap.node) if isinstance(c_, ast.Continue)]
    for y in ys_w:
        at_y = astq.guard_atoms(wrap.node, y)
        ign = ("token in ignored_tokens", False) in at_y
        raw_ = (RAWT, False) in at_y or any((RAWT, True) in astq.guard_atoms(wrap.node, c_) and c_.lineno < y.lineno for c_ in conts)
        drop_ok = drop_ok and ign and raw_
    ctx.check(bool(ys_w) and drop_ok, "wrap:dropped", "lexer:Lexer.wrap", "dropped tokens", "wrap must drop ignored tokens and raw_begin/raw_end", wrap.loc())
    sp = repo.func("parser:Parser.subparse")
    ctx.check("nodes.TemplateData(token.value, lineno=token.lineno)" in ast.unparse(sp.node), "parser:TemplateData", "parser:Parser.subparse", "data -> TemplateData", "data tokens must become TemplateData nodes", sp.loc())
    vo = repo.func("compiler:CodeGenerator.visit_Output")
    rs = [r for r in astq.raises(vo.node) if astq.raise_type(r).endswith("Impossible")]
    ok = False
    for r in rs:
        for g, pol in guards_of(r):
            if not pol:
                continue
            # the runtime path is forced iff not (finalize.const or TemplateData)
            vals = []
            for f in (True, False):
                for t_ in (True, False):
                    vals.append((f, t_, _ev(g, {"finalize.const": f, "isinstance(child, nodes.TemplateData)": t_})))
            if all(v is not None for _, _, v in vals) and all(v == (not (f or t_)) for f, t_, v in vals):
                ok = True
    ctx.check(ok, "visit_Output:templatedata", "compiler:CodeGenerator.visit_Output", "template data exempt from finalize",
              "template text must be emitted as constant data even when the finalize function needs runtime context: the forced-runtime condition must be `not (finalize.const or isinstance(child, nodes.TemplateData))`; otherwise plain text is passed through environment.finalize", vo.loc())
    oc = repo.func("compiler:CodeGenerator._output_child_to_const")
    rets = astq.returns(oc.nnode)
    isdata = "isinstance(node, nodes.TemplateData)"
    td = [r for r in rets if (isdata, True) in astq.guard_atoms(oc.nnode, r)]
    fin = [r for r in rets if "finalize.const(" in ast.unparse(r.value)]
    ctx.check(len(td) == 1 and ast.unparse(td[0].value) == "str(const)" and bool(fin) and all((isdata, False) in astq.guard_atoms(oc.nnode, r) for r in fin), "_output_child_to_const:templatedata", "compiler:CodeGenerator._output_child_to_const", "template data bypasses finalize", "TemplateData must be returned as str(const) before finalize.const is applied", oc.loc())


def _ev(e: ast.expr, val: dict[str, bool]) -> bool | None:
    if isinstance(e, ast.BoolOp):
        vs = [_ev(v, val) for v in e.values]
        if any(v is None for v in vs):
            return None
        return all(vs) if isinstance(e.op, ast.And) else any(vs)
    if isinstance(e, ast.UnaryOp) and isinstance(e.op, ast.Not):
        v = _ev(e.operand, val)
        return None if v is None else not v
    return val.get(ast.unparse(e))


def end_rule_siblings(ctx: Ctx, rid: str) -> None:
    ctx.rule(rid, "the three block-like end rules (comment, block, raw) are the same template up to the delimiter: +END | -END\\s* | END{suffix}; the variable end has -END\\s* | END and no trim suffix; the suffix is \\n? exactly with trim_blocks")
    repo = ctx.repo
    for cfg in configs():
        lm = LexModel(repo, cfg)
        trim = cfg["trim_blocks"]
        suffix = "\\n?" if trim else ""
        cfgname = f"trim_blocks={trim}"

        def end_part(pattern: str, delim: str) -> str:
            e = ph(delim)
            i = pattern.rfind("(?:\\+" + e)
            return pattern[i:].replace(e, "END") if i >= 0 else pattern.replace(e, "END")

        c = end_part(lm.rules["comment_begin"][0].pat.pattern, "comment_end_string")
        b = end_part(lm.rules["block_begin"][0].pat.pattern, "block_end_string")
        r = end_part(lm.rules["raw_begin"][0].pat.pattern, "block_end_string")
        want = f"(?:\\+END|\\-END\\s*|END{suffix})"
        c_n, b_n, r_n = c.rstrip(")"), b.rstrip(")"), r.rstrip(")")
        same = c_n == b_n == r_n
        ctx.check(same, f"{cfgname}:siblings", "lexer:Lexer.__init__", "end rules differ", f"comment / block / raw end rules differ beyond the delimiter: {c_n!r} / {b_n!r} / {r_n!r}", "src/jinja2/lexer.py", detail={"comment": c_n, "block": b_n, "raw": r_n})
        ctx.check(b_n == want.rstrip(")"), f"{cfgname}:template", "lexer:Lexer.__init__", "end rule template", f"block end rule is {b_n!r}, documented form {want!r}: `+` keeps whitespace, `-` strips all following whitespace, a plain end tag is followed by the optional trim_blocks newline", "src/jinja2/lexer.py")
        v = lm.rules["variable_begin"][0].pat.pattern.replace(ph("variable_end_string"), "END")
        ctx.check(v == "\\-END\\s*|END", f"{cfgname}:variable", "lexer:Lexer.__init__", "variable end rule", f"variable end rule is {v!r}: variable tags are never affected by trim_blocks", "src/jinja2/lexer.py")
    init = repo.func("lexer:Lexer.__init__")
    # (normal form: the conditional expression is the if / else it abbreviates)
    asg = [n for n in ast.walk(init.node) if isinstance(n, ast.Assign) and ast.unparse(n.targets[0]) == "block_suffix_re"]
    rows_s: dict[str, list] = {}
    for a in asg:
        if isinstance(a.value, ast.IfExp):
            from .normalize import atoms as _atoms2

            rows_s[ast.unparse(a.value.body)] = astq.guard_atoms(init.node, a) + _atoms2(a.value.test, True)
            rows_s[ast.unparse(a.value.orelse)] = astq.guard_atoms(init.node, a) + _atoms2(a.value.test, False)
        else:
            rows_s[ast.unparse(a.value)] = astq.guard_atoms(init.node, a)
    ok_s = set(rows_s) == {"'\\\\n?'", "''"} and rows_s["'\\\\n?'"] == [("environment.trim_blocks", True)] and rows_s["''"] == [("environment.trim_blocks", False)]
    ctx.check(ok_s, "suffix:trim_blocks", "lexer:Lexer.__init__", "suffix depends on trim_blocks only", f"block_suffix_re = {ast.unparse(asg[0].value) if asg else None}", init.loc())


def sign_group_rule(ctx: Ctx, rid: str) -> None:
    ctx.rule(rid, "every start-tag alternative of the root rule (raw included) carries the whitespace-control sign group (-|+|empty)")
    import re._constants as sc  # type: ignore[import-not-found]

    repo = ctx.repo
    for cfg in configs()[:2]:
        lm = LexModel(repo, cfg)
        root = lm.rules["root"][0].pat
        tree = parse_re(root)
        names = {v: k for k, v in tree.state.groupdict.items()}

        def has_sign(items) -> bool:  # type: ignore[no-untyped-def]
            for op, av in items:
                if op is sc.SUBPATTERN:
                    inner = list(av[3])
                    if len(inner) == 1 and inner[0][0] is sc.BRANCH:
                        lits = []
                        for alt in inner[0][1][1]:
                            alt = list(alt)
                            lits.append("".join(chr(a) for o, a in alt if o is sc.LITERAL) if all(o is sc.LITERAL for o, a in alt) else None)
                        if set(lits) == {"-", "+", ""}:
                            return True
                    if has_sign(inner):
                        return True
                elif op is sc.BRANCH:
                    if any(has_sign(list(a)) for a in av[1]):
                        return True
            return False

        def walk(items) -> None:  # type: ignore[no-untyped-def]
            for op, av in items:
                if op is sc.SUBPATTERN:
                    if av[0] in names:
                        ctx.check(has_sign(list(av[3])), f"sign:{names[av[0]]}:{len(cfg)}", "lexer:Lexer.__init__", f"start tag {names[av[0]]} without sign group",
                                  f"the root alternative {names[av[0]]} has no (-|+|) group: whitespace control on that tag is not recognised and the lstrip code reads the wrong group", "src/jinja2/lexer.py")
                    else:
                        walk(av[3])
                elif op is sc.BRANCH:
                    for a in av[1]:
                        walk(a)

        walk(tree)
        # tokeniter finds the sign of the matched tag by *position* (`groups[2::2]`): that is
        # right only if the root pattern's groups are  text, (named tag, sign), (named tag, sign)…
        # - a tag rule that brings a capturing group of its own shifts every later sign
        order: list[tuple[int, str | None, bool]] = []  # (group number, name, is sign group)

        def collect(items) -> None:  # type: ignore[no-untyped-def]
            for op, av in items:
                if op is sc.SUBPATTERN:
                    if av[0] is not None:
                        inner = list(av[3])
                        is_sign = False
                        if len(inner) == 1 and inner[0][0] is sc.BRANCH:
                            lits = ["".join(chr(a) for o, a in alt) if all(o is sc.LITERAL for o, a in alt) else None for alt in (list(x) for x in inner[0][1][1])]
                            is_sign = set(lits) == {"-", "+", ""}
                        order.append((av[0], names.get(av[0]), is_sign))
                    collect(list(av[3]))
                elif op is sc.BRANCH:
                    for a in av[1]:
                        collect(list(a))
                elif op in (sc.MAX_REPEAT, sc.MIN_REPEAT):
                    collect(list(av[2]))
                elif op in (sc.ASSERT, sc.ASSERT_NOT):
                    collect(list(av[1]))

        collect(list(tree))
        order.sort()
        ti = repo.func("lexer:Lexer.tokeniter")
        positional = "groups[2::2]" in ast.unparse(ti.node)
        if positional:
            seq = order[1:]  # group 1 is the text in front of the tag
            bad = [(num, nm) for i, (num, nm, sg) in enumerate(seq) if (i % 2 == 0 and nm is None) or (i % 2 == 1 and not sg)]
            ctx.check(not bad and len(seq) % 2 == 0 and len(seq) >= 6, f"sign:positions:{len(cfg)}:{cfg.get('line_comment_prefix', 'set')}", "lexer:compile_rules", f"root pattern groups are not (tag, sign) pairs at {bad[:2]}",
                      f"tokeniter reads the whitespace-control sign with groups[2::2], i.e. every second group after the text group; the root pattern's groups are {[(n_, 'sign' if s_ else nm_) for n_, nm_, s_ in order][:12]}: a tag rule with its own capturing group shifts the lookup, so '-' and '+' of the tags sorted after it are ignored", "src/jinja2/lexer.py",
                      detail={"groups": [(n_, nm_, s_) for n_, nm_, s_ in order]})


def lstrip_rules(ctx: Ctx, rid: str) -> None:
    ctx.rule(rid, "lstrip / '-' handling in tokeniter: '-' removes text only by rstrip(); automatic lstrip only when the sign is not '+', lstrip_blocks is on and the tag is not a variable; the slice is dominated by whitespace_re.fullmatch(text, l_pos) and (l_pos > 0 or line_starting); line_starting is refreshed after every matched rule")
    ti = ctx.repo.func("lexer:Lexer.tokeniter")
    ols = [n for n in ast.walk(ti.node) if isinstance(n, ast.If) and ast.unparse(n.test) == "isinstance(tokens, OptionalLStrip)"]
    ctx.need(len(ols) == 1, "OptionalLStrip branch not found in tokeniter")
    branch = ols[0]
    sign_if = [n for n in branch.body if isinstance(n, ast.If) and "strip_sign" in ast.unparse(n.test)]
    ctx.need(len(sign_if) == 1, "strip_sign decision not found")
    si = sign_if[0]
    ctx.check(ast.unparse(si.test) == "strip_sign == '-'" and "stripped = text.rstrip()" in ast.unparse(ast.Module(body=si.body, type_ignores=[])), "minus:rstrip", "lexer:Lexer.tokeniter", "'-' strips with rstrip()", "a '-' sign must remove all trailing whitespace of the preceding text (text.rstrip()) and nothing else", ti.loc(si))
    ctx.need(len(si.orelse) == 1 and isinstance(si.orelse[0], ast.If), "automatic lstrip branch not found")
    auto = si.orelse[0]
    conj = [ast.unparse(v) for v in auto.test.values] if isinstance(auto.test, ast.BoolOp) and isinstance(auto.test.op, ast.And) else [ast.unparse(auto.test)]
    want = {"strip_sign != '+'", "self.lstrip_blocks", "not m.groupdict().get(TOKEN_VARIABLE_BEGIN)"}
    ctx.check(set(conj) == want, "auto:conditions", "lexer:Lexer.tokeniter", f"automatic lstrip conditions {sorted(conj)}",
              f"automatic lstrip must require exactly {sorted(want)}; found {sorted(conj)}: a '+' must disable it, it must be off without lstrip_blocks, and variable tags are never stripped", ti.loc(auto), detail={"conditions": conj})
    slices = [n for n in ast.walk(auto) if isinstance(n, ast.Subscript) and isinstance(n.slice, ast.Slice) and ast.unparse(n) == "text[:l_pos]"]
    ctx.check(len(slices) == 1, "auto:slice", "lexer:Lexer.tokeniter", "single truncation", "exactly one truncation text[:l_pos] expected in the automatic lstrip branch", ti.loc(auto))
    if slices:
        from .normalize import atoms as _atoms

        gs = [a for g, pol in guards_of(slices[0], stop=auto) for a, p in _atoms(g, pol) if p]
        ctx.check("whitespace_re.fullmatch(text, l_pos)" in gs and "l_pos > 0 or line_starting" in gs, "auto:guards", "lexer:Lexer.tokeniter", f"truncation guards {gs}",
                  f"the truncation must be dominated by whitespace_re.fullmatch(text, l_pos) (only whitespace is removed) and by `l_pos > 0 or line_starting` (the tag starts its line); found {gs}", ti.loc(slices[0]))
    s = ast.unparse(auto)
    ctx.check("l_pos = text.rfind('\\n') + 1" in s, "auto:l_pos", "lexer:Lexer.tokeniter", "line start position", "l_pos must be the position after the last newline of the text", ti.loc(auto))
    ls = [n for n in ast.walk(ti.node) if isinstance(n, ast.Assign) and ast.unparse(n.targets[0]) == "line_starting" and "m.group()" in ast.unparse(n.value)]
    ctx.need(len(ls) == 1, "line_starting update not found")
    loops = [n for n in ast.walk(ti.node) if isinstance(n, ast.For) and "statetokens" in ast.unparse(n.iter)]
    ctx.need(len(loops) == 1, "rule loop not found")
    gs = [ast.unparse(g) for g, pol in guards_of(ls[0], stop=loops[0])]
    ctx.check(not gs and ast.unparse(ls[0].value) in ("m.group()[-1:] == '\\n'", "m.group().endswith('\\n')", "'\\n' == m.group()[-1:]"), "line_starting:every-match", "lexer:Lexer.tokeniter", f"line_starting update under {gs}",
              f"line_starting must be recomputed after every matched rule (guards found: {gs}): a stale value makes lstrip_blocks strip (or keep) whitespace before a tag that does not start its line, e.g. right after {{% raw %}}", ti.loc(ls[0]), detail={"guards": gs})
    init = [n for n in ast.walk(ti.node) if isinstance(n, ast.Assign) and ast.unparse(n.targets[0]) == "line_starting" and ast.unparse(n.value) == "True"]
    ctx.check(len(init) == 1, "line_starting:init", "lexer:Lexer.tokeniter", "initial value", "line_starting must start as True", ti.loc())
    ss = [n for n in ast.walk(branch) if isinstance(n, ast.Assign) and ast.unparse(n.targets[0]) == "strip_sign"]
    sg_ok = False
    if len(ss) == 1 and isinstance(ss[0].value, ast.Call) and astq.callee(ss[0].value) == "next" and len(ss[0].value.args) == 1 and isinstance(ss[0].value.args[0], ast.GeneratorExp):
        ge_ = ss[0].value.args[0]
        gv = ast.unparse(ge_.generators[0].target)
        sg_ok = len(ge_.generators) == 1 and ast.unparse(ge_.generators[0].iter) == "groups[2::2]" and ast.unparse(ge_.elt) == gv and [ast.unparse(i_) for i_ in ge_.generators[0].ifs] == [f"{gv} is not None"]
    ctx.check(sg_ok, "strip_sign:groups", "lexer:Lexer.tokeniter", "sign group selection", "the sign must be the first non-None group among groups[2::2]", ti.loc())


def token_line_rules(ctx: Ctx, rid: str) -> None:
    ctx.rule(rid, "line accounting in tokeniter: every `yield lineno, token, text` is followed, before the next rule is tried, by `lineno += text.count('\\n')`; newlines removed by '-' are counted once (set, consumed, zeroed); lineno starts at 1")
    ti = ctx.repo.func("lexer:Lexer.tokeniter")
    ys = [n for n in ast.walk(ti.node) if isinstance(n, ast.Yield) and isinstance(n.value, ast.Tuple) and len(n.value.elts) == 3]
    ctx.floor("yield sites in tokeniter", len(ys), 3)
    for y in ys:
        textvar = ast.unparse(y.value.elts[2])
        ctx.check(ast.unparse(y.value.elts[0]) == "lineno", f"yield:{textvar}:lineno", "lexer:Lexer.tokeniter", "yields the current line", "tokens must carry the current lineno", ti.loc(y))
        st = astq.stmt_of(y)
        holder: ast.AST = st  # type: ignore[assignment]
        par = getattr(st, "_parent", None)
        # an emptiness guard `if data or token not in ignore_if_empty:` wraps the yield only
        if isinstance(par, ast.If) and len(par.body) == 1 and par.body[0] is st and not par.orelse:
            holder = par
            par = getattr(par, "_parent", None)
        nxt = None
        for field in ("body", "orelse", "finalbody"):
            seq = getattr(par, field, None)
            if isinstance(seq, list) and any(x is holder for x in seq):
                i = [k for k, x in enumerate(seq) if x is holder][0]
                nxt = seq[i + 1] if i + 1 < len(seq) else None
        ok = isinstance(nxt, ast.AugAssign) and ast.unparse(nxt.target) == "lineno" and isinstance(nxt.op, ast.Add) and f"{textvar}.count('\\n')" in ast.unparse(nxt.value)
        ctx.check(ok, f"yield:{textvar}:{y.lineno}", "lexer:Lexer.tokeniter", f"line count after yielding {textvar}",
                  f"after `yield lineno, ..., {textvar}` the next statement must be `lineno += {textvar}.count('\\n')` (found `{ast.unparse(nxt)[:60] if nxt is not None else None}`): later tokens would carry wrong line numbers", ti.loc(y), detail={"yield": ast.unparse(y)[:60]})
    # the count follows the text *consumed*, whether or not a token is reported for it (an
    # empty ignorable group is not yielded, but the newlines removed in front of it still
    # passed): the update sits in the same block as the binding of the text, with nothing
    # in between that can skip it
    ups = [n for n in ast.walk(ti.node) if isinstance(n, ast.AugAssign) and ast.unparse(n.target) == "lineno"]
    ctx.floor("lineno updates in tokeniter", len(ups), 3)
    for u in ups:
        m_ = [x for x in ast.walk(u.value) if isinstance(x, ast.Call) and isinstance(x.func, ast.Attribute) and x.func.attr == "count" and isinstance(x.func.value, ast.Name)]
        if not m_:
            continue
        var = m_[0].func.value.id  # type: ignore[attr-defined]
        par = getattr(u, "_parent", None)
        seq = next((getattr(par, f) for f in ("body", "orelse", "finalbody") if isinstance(getattr(par, f, None), list) and any(x is u for x in getattr(par, f))), None)
        ctx.need(seq is not None, "lineno update without a statement list")
        k = [i for i, x in enumerate(seq) if x is u][0]
        binds = [i for i, x in enumerate(seq[:k]) if isinstance(x, ast.Assign) and any(isinstance(t_, ast.Name) and t_.id == var for t_ in x.targets)]
        bound_elsewhere = [a for a in ast.walk(ti.node) if isinstance(a, ast.Assign) and any(isinstance(t_, ast.Name) and t_.id == var for t_ in a.targets)]
        if not bound_elsewhere:
            continue  # loop variable of the #bygroup search: counted right after its yield (rule above)
        if not binds:
            ctx.check(False, f"lineno:{var}:same-block", "lexer:Lexer.tokeniter", f"count of `{var}` not in the block that binds it",
                      f"`lineno += {var}.count(...)` is nested below a condition that the binding `{var} = ...` is not under: text that is consumed but not reported (an empty group after '-' stripping) is never counted, and every later token carries a too small line number", ti.loc(u))
            continue
        skipping = [x for st_ in seq[binds[-1] + 1:k] for x in ast.walk(st_) if isinstance(x, (ast.Continue, ast.Break, ast.Return))]
        ctx.check(not skipping, f"lineno:{var}:no-skip", "lexer:Lexer.tokeniter", f"count of `{var}` can be skipped by {[type(x).__name__ for x in skipping]}",
                  f"between `{var} = ...` and `lineno += {var}.count(...)` a {[type(x).__name__.lower() for x in skipping]} can leave the block: the consumed text (and the newlines stripped by '-') is then not counted and later tokens carry wrong line numbers", ti.loc(u))
    s = ast.unparse(ti.node)
    ns = [n for n in ast.walk(ti.node) if isinstance(n, ast.Assign) and ast.unparse(n.targets[0]) == "newlines_stripped"]
    vals = sorted(ast.unparse(n.value) for n in ns)
    ctx.check(vals == ["0", "0", "text[len(stripped):].count('\\n')"], "newlines_stripped:protocol", "lexer:Lexer.tokeniter", f"newlines_stripped assignments {vals}",
              f"newlines_stripped must be initialised to 0, set to the number of newlines in the whitespace removed by '-', and zeroed after it was added to lineno; found {vals}", ti.loc())
    use = [n for n in ast.walk(ti.node) if isinstance(n, ast.AugAssign) and "newlines_stripped" in ast.unparse(n.value)]
    ok = len(use) == 1 and astq.linear(use[0].value) == {"data.count('\\n')": 1, "newlines_stripped": 1}
    ctx.check(ok, "newlines_stripped:consumed", "lexer:Lexer.tokeniter", "stripped newlines counted once", "the stripped newlines must be added to lineno exactly once, together with the newlines of the (shortened) text", ti.loc())
    if use:
        par = getattr(use[0], "_parent", None)
        seq = getattr(par, "orelse", []) if use[0] in getattr(par, "orelse", []) else getattr(par, "body", [])
        i = [k for k, x in enumerate(seq) if x is use[0]]
        ok = bool(i) and i[0] + 1 < len(seq) and ast.unparse(seq[i[0] + 1]) == "newlines_stripped = 0"
        ctx.check(ok, "newlines_stripped:zeroed", "lexer:Lexer.tokeniter", "zeroed after use", "newlines_stripped must be reset right after it was consumed", ti.loc(use[0]))
    ctx.check("lineno = 1" in s and "pos = 0" in s, "lineno:init", "lexer:Lexer.tokeniter", "initial position", "tokeniter must start at position 0, line 1", ti.loc())
    lx = ctx.repo.func("environment:Environment.lex")
    s = ast.unparse(lx.node)
    s = lx.ntext  # `try: t = f() except: <leaves> else: return t` is `try: return f() ...` in normal form
    ctx.check("return self.lexer.tokeniter(source, name, filename)" in s and "source = str(source)" in s, "Environment.lex", "environment:Environment.lex", "raw stream", "Environment.lex must return the unfiltered tokeniter stream of str(source)", lx.loc())
    be = ctx.repo.func("ext:babel_extract")
    ctx.check("list(environment.lex(environment.preprocess(source)))" in ast.unparse(be.node), "babel_extract:lex", "ext:babel_extract", "comment finder input", "babel_extract must search comments in environment.lex(environment.preprocess(source))", be.loc())


def whitespace_notion_rule(ctx: Ctx, rid: str) -> None:
    """The tokenizer strips whitespace in three ways that must agree on what whitespace is:
    the `-` sign uses str.rstrip() and the `\\s*` of the tag regexes (Unicode whitespace),
    lstrip_blocks asks whitespace_re.fullmatch whether the text before a tag is blank.  An
    ASCII-only whitespace_re makes an ideographic / no-break space indentation survive
    lstrip_blocks while `{%-` removes it."""
    import re as _re

    ctx.rule(rid, "one notion of whitespace: whitespace_re (lstrip_blocks, whitespace inside tags) is `\\s+` with Unicode meaning, like str.rstrip() and the \\s* of the tag rules")
    lm = LexModel(ctx.repo, configs()[0])
    pat = lm.module_regex("whitespace_re")
    asc = bool(pat.flags & _re.ASCII) or "(?a" in pat.pattern
    ctx.check(not asc and pat.pattern.replace(" ", "") in (r"\s+", r"[\s]+"), "whitespace_re", "lexer:<module>", f"whitespace_re = {pat.pattern!r} flags {pat.flags}",
              f"whitespace_re = re.compile({pat.pattern!r}, {pat.flags}): lstrip_blocks and the in-tag whitespace rule must use the same (Unicode) notion of whitespace as str.rstrip() and `\\s*` in the tag regexes - with re.ASCII an indentation of U+3000 / U+00A0 before a block tag is kept by lstrip_blocks but removed by `{{%-`",
              "src/jinja2/lexer.py", detail={"pattern": pat.pattern, "flags": pat.flags})
    n_asc = 0
    for cfg in configs():
        for state, rules in LexModel(ctx.repo, cfg).rules.items():
            for rule in rules:
                if rule.pat.origin == "inline" and (rule.pat.flags & _re.ASCII or "(?a" in rule.pat.pattern):
                    n_asc += 1
    ctx.check(n_asc == 0, "tag-rules:unicode", "lexer:Lexer.__init__", "tag rules compiled with re.ASCII", "the rules Lexer.__init__ builds must not be ASCII-restricted (their \\s* strips what str.rstrip() strips)", "src/jinja2/lexer.py")


def delimiters_escaped_rule(ctx: Ctx, rid: str) -> None:
    """Every configurable delimiter / prefix reaches a regular expression only through
    re.escape (directly or via a local alias); the other uses are len(), tests against None and
    truth tests.  Shared by C01 (a raw metacharacter makes `re.compile` raise re.error while
    loading), C11 / C13 (it changes what the delimiter matches)."""
    ctx.rule(rid, "delimiter and prefix strings of the environment are interpolated into lexer patterns only as re.escape(<string>)")
    n = 0
    for spec in ("lexer:compile_rules", "lexer:Lexer.__init__"):
        fi = ctx.repo.func(spec)
        esc_names = {"re.escape"}
        for a in ast.walk(fi.node):
            if isinstance(a, ast.Assign) and ast.unparse(a.value) == "re.escape":
                esc_names |= {t_.id for t_ in a.targets if isinstance(t_, ast.Name)}

        def context_ok(x: ast.AST) -> bool:
            par = getattr(x, "_parent", None)
            if isinstance(par, ast.Call) and astq.callee(par) in esc_names | {"len"} and any(a_ is x for a_ in par.args):
                return True
            if isinstance(par, ast.Compare) and all(isinstance(o, (ast.Is, ast.IsNot)) for o in par.ops):
                return True
            if isinstance(par, (ast.If, ast.IfExp, ast.While)) and par.test is x:
                return True
            if isinstance(par, (ast.BoolOp, ast.UnaryOp)):
                return context_ok(par)
            return False

        sites: list[tuple[str, ast.AST]] = []
        for x in ast.walk(fi.node):
            if isinstance(x, ast.Attribute) and isinstance(x.value, ast.Name) and x.value.id == "environment" and x.attr.endswith(("_string", "_prefix")):
                par = getattr(x, "_parent", None)
                if isinstance(par, ast.Assign) and par.value is x and len(par.targets) == 1 and isinstance(par.targets[0], ast.Name):
                    # a local naming the raw string: its loads obey the same discipline
                    loc = par.targets[0].id
                    binds = sorted(a_.lineno for a_ in ast.walk(fi.node) if isinstance(a_, ast.Assign) and any(isinstance(t_, ast.Name) and t_.id == loc for t_ in a_.targets))
                    for y in ast.walk(fi.node):
                        if isinstance(y, ast.Name) and y.id == loc and isinstance(y.ctx, ast.Load):
                            # (straight-line rebinding: a load belongs to the closest binding above it)
                            if max([b for b in binds if b <= y.lineno], default=par.lineno) == par.lineno:
                                sites.append((x.attr, y))
                else:
                    sites.append((x.attr, x))
        for attr, x in sites:
            n += 1
            ok = context_ok(x)
            ctx.check(ok, f"{fi.node.name}:{attr}:{n}", spec, f"`{attr}` used unescaped" if not ok else f"{attr} escaped",
                      f"{fi.node.name} puts environment.{attr} into a pattern without re.escape (`{ast.unparse(astq.stmt_of(x))[:90]}`): a delimiter containing a regex metacharacter ('<?', '\\\\BLOCK{{', '#.', '*') then matches something else - plain text is taken for a tag or a comment - or makes re.compile raise re.error while the template is loaded",
                      fi.loc(x), detail={"attribute": attr})
    ctx.floor("delimiter uses in lexer patterns", n, 14)


def group_coverage_rule(ctx: Ctx, rid: str) -> None:
    """tokeniter counts line breaks group by group for a rule with several tokens: a part of
    such a pattern that can match a line break must lie inside a capture group."""
    import re._parser as sre_parse  # type: ignore[import-not-found]
    import re._constants as sre_c  # type: ignore[import-not-found]

    ctx.rule(rid, "multi-token lexer rules: every part of the pattern that can consume a line break lies inside a capture group (tokeniter adds up line breaks per group)")

    def can_nl(item: t.Any) -> bool:
        op, av = item
        if op is sre_c.LITERAL:
            return av in (10, 13)
        if op is sre_c.NOT_LITERAL:
            return True
        if op is sre_c.ANY:
            return True
        if op is sre_c.IN:
            def member(ch: int) -> bool:
                hit = False
                for o, v in av:
                    if o is sre_c.LITERAL and v == ch:
                        hit = True
                    elif o is sre_c.RANGE and v[0] <= ch <= v[1]:
                        hit = True
                    elif o is sre_c.CATEGORY and v in (sre_c.CATEGORY_SPACE, sre_c.CATEGORY_NOT_DIGIT, sre_c.CATEGORY_NOT_WORD, sre_c.CATEGORY_LINEBREAK):
                        hit = True
                neg = any(o is sre_c.NEGATE for o, _ in av)
                return hit != neg
            return member(10) or member(13)
        if op in (sre_c.MAX_REPEAT, sre_c.MIN_REPEAT, sre_c.POSSESSIVE_REPEAT):
            return av[1] > 0 and any(can_nl(i) for i in av[2])
        if op is sre_c.SUBPATTERN:
            return any(can_nl(i) for i in av[3])
        if op is sre_c.BRANCH:
            return any(can_nl(i) for alt in av[1] for i in alt)
        if op is sre_c.ATOMIC_GROUP:
            return any(can_nl(i) for i in av)
        return False  # AT, ASSERT, ASSERT_NOT, GROUPREF (text counted where captured)

    def uncovered(seq: t.Any) -> list[t.Any]:
        out = []
        for op, av in seq:
            if op is sre_c.SUBPATTERN:
                if av[0] is not None:
                    continue  # capturing: counted by tokeniter
                out += uncovered(av[3])
            elif op is sre_c.BRANCH:
                for alt in av[1]:
                    out += uncovered(alt)
            elif can_nl((op, av)):
                out.append((op, av))
        return out

    n = 0
    for cfg in configs():
        lm = LexModel(ctx.repo, cfg)
        for state, rules in lm.rules.items():
            for r in rules:
                multi = isinstance(r.tokens, tuple) and not (len(r.tokens) == 1 and isinstance(r.tokens[0], tuple))
                if not multi:
                    continue
                n += 1
                try:
                    tree = sre_parse.parse(r.pat.pattern, r.pat.flags)
                except Exception as e:  # noqa: BLE001
                    ctx.need(False, f"lexer rule of state {state} does not parse: {e}")
                bad = uncovered(tree)
                ctx.check(not bad, f"{state}:{r.lineno}:trim={cfg['trim_blocks']},lstrip={cfg.get('lstrip_blocks')}", "lexer:Lexer.__init__", f"{len(bad)} line-break capable part(s) outside the capture groups" if bad else "all covered",
                          f"the rule of state `{state}` has several tokens, so tokeniter advances `lineno` by the line breaks of each *group*; the pattern {r.pat.pattern!r} can consume a line break outside every capture group ({len(bad)} part(s)): after such a match (`{{% endraw -%}}` followed by blank lines, trim_blocks) all later tokens, syntax errors and tracebacks carry a line number that is too small",
                          f"src/jinja2/lexer.py:{r.lineno}")
    ctx.floor("multi-token lexer rules", n, 4)
