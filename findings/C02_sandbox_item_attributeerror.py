from jinja2 import Environment
from jinja2.sandbox import SandboxedEnvironment
class P:
    def __init__(self, o): self._o = o
    def __getitem__(self, k): return getattr(self._o, k)   # raises AttributeError for a missing key
class O: x = 1
outs = []
for E in (Environment, SandboxedEnvironment):
    env = E()
    try: outs.append(env.from_string("[{{ p.missing }}|{{ p['missing'] }}|{{ p.missing is defined }}]").render(p=P(O())))
    except Exception as e: outs.append(f"{type(e).__name__}: {e}")
print(outs)
print("PASS" if outs[0] == outs[1] else "FAIL: the sandbox leaks the AttributeError the plain environment turns into undefined")
