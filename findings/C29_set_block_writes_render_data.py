from jinja2.sandbox import ImmutableSandboxedEnvironment
from jinja2 import Environment
for E in (Environment, ImmutableSandboxedEnvironment):
    d = {"x": 1}
    try:
        out = E().from_string("{% set d.x %}changed{% endset %}ok").render(d=d)
    except Exception as e:
        out = f"{type(e).__name__}: {e}"
    print(E.__name__, out, d)
    assert d == {"x": 1}, "FAIL: the template modified the dict passed to render"
print("PASS")
