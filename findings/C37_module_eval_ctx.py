import asyncio
from jinja2 import Environment, DictLoader
async def slow(v, ev=None, wait=None):
    if ev: ev.set()
    if wait: await wait.wait()
    return v
env = Environment(enable_async=True, autoescape=True, loader=DictLoader({
 "lib": "{% macro m(f, x) %}{% autoescape false %}{{ f() }}{% endautoescape %}{{ x }}{% endmacro %}{% macro n(x) %}{{ [x, '<i>'|safe]|join(',') }}{% endmacro %}",
 "a": "{% import 'lib' as lib %}{{ lib.m(f, x) }}",
 "b": "{% import 'lib' as lib %}{{ lib.n(x) }}",
}))
async def main():
    entered, release = asyncio.Event(), asyncio.Event()
    async def f():
        entered.set(); await release.wait(); return "ok"
    ta = asyncio.create_task(env.get_template("a").render_async(f=f, x="<a>"))
    await entered.wait()
    out_b = await env.get_template("b").render_async(x="<b>")
    release.set()
    out_a = await ta
    alone = await env.get_template("b").render_async(x="<b>")
    print(repr(out_b), repr(alone), repr(out_a))
    print("FAIL" if out_b != alone else "PASS")
asyncio.run(main())
