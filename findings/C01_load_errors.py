"""Templates that raised something other than TemplateSyntaxError while loading (fixed by
8b6a8ad, 29b2657, d769bd9, 5fcea1c, 5672db4).
Run: PYTHONPATH=/repo/src /venv/bin/python findings/C01_load_errors.py"""
from jinja2 import DictLoader, Environment, TemplateSyntaxError

bad = 0
env = Environment(loader=DictLoader({'a"b': "{{ 1 if x }}", "a'b\\": "{{ 1 if x }}"}))
jobs = [(env.from_string, s) for s in ("{{ {[1]: 2}.x }}", "{{ 10**5000 ~ 'x' }}", "{{ 10**5000 }}", "{% set x = 10**5000 %}", "{{ f(__debug__=1) }}", "{{ x[1:2, 3] }}", "{{ x[::, 1:2] }}")]
jobs += [(env.get_template, n) for n in ('a"b', "a'b\\")]
for fn, arg in jobs:
    try:
        fn(arg)
        print("loads           ", repr(arg))
    except TemplateSyntaxError as e:
        print("syntax error    ", repr(arg), e)
    except Exception as e:
        bad += 1
        print("FAIL", type(e).__name__, repr(arg), str(e)[:80])
print("FAIL" if bad else "PASS")
raise SystemExit(1 if bad else 0)
