"""KNOWN FINDING (not repaired): constant folding evaluates size-amplifying operators without a
bound, so loading a tiny template can take unbounded time / memory.
Run: PYTHONPATH=/repo/src /venv/bin/python findings/C01_fold_unbounded.py   (prints FAIL)"""
import multiprocessing as mp
import time


def load(src):
    from jinja2 import Environment

    Environment().from_string(src)


if __name__ == "__main__":
    bad = 0
    for src in ("{{ 9**(9**9) }}", "{% if false %}{{ 7**(7**(7**7)) }}{% endif %}"):
        p = mp.Process(target=load, args=(src,))
        t0 = time.time()
        p.start()
        p.join(20)
        hung = p.is_alive()
        if hung:
            p.kill()
            p.join()
        print(f"{src!r}: {'still loading after 20 s (killed)' if hung else f'loaded in {time.time() - t0:.1f}s'}")
        bad += hung
    print("FAIL: loading does not terminate in reasonable time" if bad else "PASS")
    raise SystemExit(1 if bad else 0)
