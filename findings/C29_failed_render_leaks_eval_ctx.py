from jinja2 import Environment, DictLoader
env = Environment(autoescape=True, loader=DictLoader({
 "lib": "{% macro m(f) %}{% autoescape false %}{{ f() }}{% endautoescape %}{% endmacro %}{% macro n(x) %}{{ [x, '<i>'|safe]|join(',') }}{% endmacro %}",
 "a": "{% import 'lib' as lib %}{{ lib.m(f) }}",
 "b": "{% import 'lib' as lib %}{{ lib.n(x) }}",
}))
def boom(): raise ValueError("x")
first = env.get_template("b").render(x="<b>")
try: env.get_template("a").render(f=boom)
except ValueError: pass
second = env.get_template("b").render(x="<b>")
print(repr(first), repr(second))
print("PASS" if first == second else "FAIL: a failed render changed the output of later renders")
