from jinja2 import Environment
def NoOpt(): return Environment(optimized=False)

a = Environment().from_string("{{ (-2) ** x }}|{{ (-2) ** 2 }}|{{ (0 - 2) ** x }}|{{ (-2.5) ** x }}").render(x=2)
b = NoOpt().from_string("{{ (-2) ** x }}|{{ (-2) ** 2 }}|{{ (0 - 2) ** x }}|{{ (-2.5) ** x }}").render(x=2)
print(a); print(b)
print("PASS" if a == b else "FAIL: constant folding changed the value of (-2) ** x")
