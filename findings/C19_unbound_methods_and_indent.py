"""Two ways an immutable-sandbox template modified its data (fixed by 42dfe43 and d659d40).
Run: PYTHONPATH=/repo/src /venv/bin/python findings/C19_unbound_methods_and_indent.py"""
import copy
from collections import deque

from jinja2.sandbox import ImmutableSandboxedEnvironment

env = ImmutableSandboxedEnvironment()
bad = 0
for src, data in (("{{ dict.update(d, x=1) }}", {"d": {"a": 1}}), ("{{ dict.clear(d) }}", {"d": {"a": 1}}), ("{{ l|indent }}", {"l": [1, 2]}), ("{{ q|indent }}", {"q": deque([1])})):
    before = copy.deepcopy(data)
    try:
        out = env.from_string(src).render(**data)
    except Exception as e:
        out = f"{type(e).__name__}"
    print(src, "->", out, "| data changed:", data != before)
    bad += data != before
print("FAIL" if bad else "PASS")
raise SystemExit(1 if bad else 0)
