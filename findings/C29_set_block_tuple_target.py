"""`{% set a, d.x %}ab{% endset %}` stored into a dict of the render data (fixed by 9fae46d).
Run: PYTHONPATH=/repo/src /venv/bin/python findings/C29_set_block_tuple_target.py"""
from jinja2 import Environment
from jinja2.sandbox import ImmutableSandboxedEnvironment

for E in (Environment, ImmutableSandboxedEnvironment):
    d = {"role": "guest"}
    try:
        out = E().from_string("{% set a, d.x %}ab{% endset %}{{ a }}").render(d=d)
    except Exception as e:
        out = f"{type(e).__name__}: {e}"
    print(E.__name__, out, d)
    assert d == {"role": "guest"}, "FAIL: the template modified the dict passed to render"
print("PASS")
