"""KNOWN FINDING (not repaired): the Namespace check of `{% set %}` runs before the assignment
statement; a tuple target that first rebinds the checked name defeats it.
Run: PYTHONPATH=/repo/src /venv/bin/python findings/C29_set_tuple_rebinds_namespace.py  (prints FAIL)"""
from jinja2 import Environment
from jinja2.sandbox import ImmutableSandboxedEnvironment

bad = 0
for E in (Environment, ImmutableSandboxedEnvironment):
    for src in (
        "{% set ns = namespace() %}{% set ns, ns.x = d, 1 %}",
        "{% set ns = namespace() %}{% set ns, ns.x | default([d, 1], true) %}{% endset %}",
    ):
        d = {"role": "guest"}
        try:
            out = E().from_string(src).render(d=d)
        except Exception as e:
            out = f"{type(e).__name__}: {e}"
        print(E.__name__, src, "->", out, d)
        bad += d != {"role": "guest"}
print("FAIL: render data modified" if bad else "PASS")
raise SystemExit(1 if bad else 0)
