"""FIXED by 6f57a8f: the output folding wrote str() of any constant object into the generated
source; for `{{ "abc".upper }}` that text contains a memory address, so the source differed
between processes.  Run: /venv/bin/python findings/C30_address_in_generated_source.py   (prints 1 on the
repaired tree = one distinct source over three processes; printed 3 before the fix)"""
import subprocess, sys
code = r'''
from jinja2 import Environment
env = Environment()
print(env.compile('{{ "abc".upper }}|{{ x }}', raw=True))
'''
outs = set()
for i in range(3):
    outs.add(subprocess.run([sys.executable, "-c", code], capture_output=True, text=True, env={"PYTHONPATH": "/repo/src", "PYTHONHASHSEED": str(i)}).stdout)
print(len(outs))
for o in outs: print([l for l in o.splitlines() if 'built-in' in l or 'yield' in l][:3])
