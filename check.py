#!/venv/bin/python
"""Driver: ``check.py Cxx [--tier quick|thorough] [--replay file]``.

Exit 0: every armed rule of the property holds on /repo's current working tree (known
findings are printed).  Exit 1 + ``VIOLATION property=Cxx replay=<file>``: a rule instance
fails that known_findings.json does not list.  Exit 2 + ``ANALYSIS-ERROR``: the analyser
could not establish its own preconditions; never a silent pass.
"""

from __future__ import annotations

import argparse
import importlib
import json
import os
import sys
import time
import traceback

sys.path.insert(0, os.path.dirname(os.path.abspath(__file__)))
sys.dont_write_bytecode = True

from sa.core import Ctx  # noqa: E402
from sa.core import finish  # noqa: E402
from sa.srcmodel import AnalysisError  # noqa: E402
from sa.srcmodel import Repo  # noqa: E402


def main() -> int:
    ap = argparse.ArgumentParser()
    ap.add_argument("prop")
    ap.add_argument("--tier", default=os.environ.get("VERIF_TIER") or "quick")
    ap.add_argument("--replay")
    ap.add_argument("--repo", default=os.environ.get("VERIF_REPO", "/repo"))
    args = ap.parse_args()
    if args.tier not in ("quick", "thorough"):
        args.tier = "quick"
    seed = int(os.environ.get("VERIF_SEED", "0") or 0)
    t0 = time.time()
    prop = args.prop.upper()
    if args.replay:
        with open(args.replay, encoding="utf-8") as f:
            data = json.load(f)
        print(f"replaying {len(data.get('violations', []))} recorded violation(s) of {prop} against the current tree")
        for v in data.get("violations", []):
            print(f"  recorded: {v['key']} :: {v['message']}")
    level = "other"
    ctx = None
    try:
        repo = Repo(args.repo)
        ctx = Ctx(prop, repo, args.tier, seed)
        mod = importlib.import_module(f"sa.props.{prop.lower()}")
        explanation = mod.check(ctx) or mod.__doc__ or ""
        if args.tier == "thorough" and os.environ.get("VERIF_SELFTEST", "1") != "0":
            from sa.core import new_findings
            from sa.selftest import selftest

            base = {f.key for f in new_findings(ctx)}
            if not base:  # on a violating tree every variant "fires" trivially: skip
                read_set = set(ctx.units) | set(repo.touched) | (set(repo.raw.touched) if getattr(repo, "_raw", None) is not None else set())
                st = selftest(prop, args.repo, base, read_set)
                ctx.selftest = st
                if not st["ok"]:
                    return finish(ctx, explanation.strip(), level, t0, error=f"self-test of the checker failed: missed variants {st['missed']}, format twin {st['twin']}, refactoring sets raising an alarm {st.get('alarms')}")
        return finish(ctx, explanation.strip(), level, t0)
    except AnalysisError as e:
        if ctx is None:
            print(f"ANALYSIS-ERROR property={prop} {e}")
            return 2
        return finish(ctx, "analysis could not be completed", level, t0, error=str(e))
    except Exception as e:  # a crash of the analyser is never a verdict
        traceback.print_exc()
        if ctx is None:
            print(f"ANALYSIS-ERROR property={prop} {type(e).__name__}: {e}")
            return 2
        return finish(ctx, "analysis crashed", level, t0, error=f"{type(e).__name__}: {e}")


if __name__ == "__main__":
    sys.exit(main())
